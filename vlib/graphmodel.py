"""Reference model for the graph classes of cnfgen/graphs.py (property C16).

The model of a graph object is the vertex count(s) and a Python set of edges:

* simple    : n,   edges = set of (min(u,v), max(u,v))
* directed  : n,   edges = set of (src, dest)        (loops allowed)
* bipartite : L,R, edges = set of (left, right)

``apply_op`` executes one operation of an operation log on the real object and on
the model and says what happened; ``check_views`` compares every public view of
the real object with the model.  Both raise ``vlib.core.Violation``.

Only public methods are used; no attribute of the objects is read.
"""
from vlib.core import Violation, exception_in_tree, short_tb

KINDS = {'Graph': 'simple', 'DirectedGraph': 'directed', 'BipartiteGraph': 'bipartite'}

# operations each class offers (remove_edge / update_vertex_number exist only in Graph;
# DirectedGraph.is_dag documents "edges can be added and not removed")
OPS = {
    'Graph': ('add_edge', 'add_edges_from', 'remove_edge', 'update_vertex_number'),
    'DirectedGraph': ('add_edge', 'add_edges_from'),
    'BipartiteGraph': ('add_edge', 'add_edges_from'),
}


def graph_class(clsname):
    import cnfgen.graphs as g
    return getattr(g, clsname)


class Model:
    def __init__(self, clsname, n=None, L=None, R=None):
        self.clsname = clsname
        self.kind = KINDS[clsname]
        self.n, self.L, self.R = n, L, R
        self.E = set()
        self.inserted_total = 0     # successful insertions of a new edge so far

    def copy(self):
        m = Model(self.clsname, self.n, self.L, self.R)
        m.E = set(self.E)
        return m

    def norm(self, u, v):
        if self.kind == 'simple':
            return (min(u, v), max(u, v))
        return (u, v)

    def classify(self, u, v):
        """'ok' = the class allows the insertion, 'bad' = it must be refused,
        'gray' = either outcome is accepted (self-loop in a directed graph: the code
        inserts it, its error message says 'u,v must be distinct')."""
        if self.kind == 'bipartite':
            return 'ok' if (1 <= u <= self.L and 1 <= v <= self.R) else 'bad'
        if not (1 <= u <= self.n and 1 <= v <= self.n):
            return 'bad'
        if u == v:
            return 'bad' if self.kind == 'simple' else 'gray'
        return 'ok'

    def has(self, u, v):
        return self.norm(u, v) in self.E

    def is_dag(self):
        return all(u < v for (u, v) in self.E)

    def describe(self):
        if self.kind == 'bipartite':
            return "{}({},{}) edges={}".format(self.clsname, self.L, self.R, sorted(self.E))
        return "{}({}) edges={}".format(self.clsname, self.n, sorted(self.E))


def build(clsname, case):
    """Create the real object and its model from the sizes in the case."""
    cls = graph_class(clsname)
    if clsname == 'BipartiteGraph':
        return cls(case['L'], case['R']), Model(clsname, L=case['L'], R=case['R'])
    return cls(case['n']), Model(clsname, n=case['n'])


# ---------------------------------------------------------------------------
# guarded calls

class _Refused(Exception):
    pass


def _call(ctx, f, *args):
    """Call into the tree. Returns (True, value) or (False, ValueError instance).
    Any other exception raised by the tree becomes a Violation with the context."""
    try:
        return True, f(*args)
    except ValueError as e:
        if exception_in_tree(e):
            return False, e
        raise
    except Violation:
        raise
    except Exception as e:   # noqa
        if exception_in_tree(e):
            raise Violation("{}: unexpected {} from the code under test: {} [{}]".format(
                ctx, type(e).__name__, e, short_tb(e))) from e
        raise


def _view(ctx, what, f, *args):
    ok, val = _call(ctx, f, *args)
    if not ok:
        raise Violation("{}: {} raised ValueError({}) on a vertex/graph that is in range".format(ctx, what, val))
    return val


# ---------------------------------------------------------------------------
# the invariant

def _pairs(obj, ctx, what):
    out = []
    for e in obj:
        t = tuple(e)
        if len(t) != 2:
            raise Violation("{}: {} yields {!r}, not a pair".format(ctx, what, e))
        out.append(t)
    return out


def check_views(G, M, ctx, networkx_too=True):
    """Every public view of G must agree with the model M."""
    kind = M.kind
    E = M.E
    N = (M.L + M.R) if kind == 'bipartite' else M.n

    def bad(msg):
        raise Violation("{}: {} | model: {}".format(ctx, msg, M.describe()))

    # ---- sizes
    nv = _view(ctx, 'number_of_vertices()', G.number_of_vertices)
    if nv != N:
        bad("number_of_vertices() = {} instead of {}".format(nv, N))
    if _view(ctx, 'order()', G.order) != N:
        bad("order() = {} instead of {}".format(G.order(), N))
    if len(G) != N:
        bad("len(G) = {} instead of {}".format(len(G), N))
    if kind == 'bipartite':
        if G.left_order() != M.L or G.right_order() != M.R:
            bad("left_order(), right_order() = {}, {}".format(G.left_order(), G.right_order()))
        parts = G.parts()
        if [list(p) for p in parts] != [list(range(1, M.L + 1)), list(range(1, M.R + 1))]:
            bad("parts() = {}".format(parts))
    else:
        if list(G.vertices()) != list(range(1, N + 1)):
            bad("vertices() = {}".format(list(G.vertices())))

    # ---- kind flags relied upon by writeGraph / add_random_missing_edges
    if kind != 'bipartite' and bool(G.is_directed()) != (kind == 'directed'):
        bad("is_directed() = {}".format(G.is_directed()))
    if bool(G.is_bipartite()) != (kind == 'bipartite'):
        bad("is_bipartite() = {}".format(G.is_bipartite()))

    # ---- edge count and edge listing
    m = _view(ctx, 'number_of_edges()', G.number_of_edges)
    if m != len(E):
        bad("number_of_edges() = {} instead of {}".format(m, len(E)))
    EL = _view(ctx, 'edges()', G.edges)
    if len(EL) != len(E):
        bad("len(edges()) = {} instead of {}".format(len(EL), len(E)))
    listing = _pairs(EL, ctx, 'edges()')
    normed = [M.norm(u, v) for (u, v) in listing]
    if len(set(normed)) != len(normed):
        bad("edges() lists an edge twice: {}".format(listing))
    if set(normed) != E:
        bad("edges() = {}".format(listing))
    if listing != sorted(listing):
        bad("edges() is not sorted: {}".format(listing))
    if kind != 'simple' and listing != sorted(E):
        bad("edges() = {}".format(listing))
    if kind == 'directed':
        EL2 = G.edges_ordered_by_successors()
        l2 = _pairs(EL2, ctx, 'edges_ordered_by_successors()')
        if len(EL2) != len(E) or len(l2) != len(E) or set(l2) != E:
            bad("edges_ordered_by_successors() = {}".format(l2))
    else:
        EL2 = None

    # ---- membership, every ordered pair, in range and just outside
    if kind == 'bipartite':
        us, vs = range(-1, M.L + 3), range(-1, M.R + 3)
    else:
        us = vs = range(-1, N + 3)
    for u in us:
        for v in vs:
            want = M.has(u, v)
            got = G.has_edge(u, v)
            if bool(got) != want:
                bad("has_edge({},{}) = {}".format(u, v, got))
            got = (u, v) in EL
            if bool(got) != want:
                bad("({},{}) in edges() = {}".format(u, v, got))
            if EL2 is not None and bool((u, v) in EL2) != want:
                bad("({},{}) in edges_ordered_by_successors() = {}".format(u, v, (u, v) in EL2))

    # ---- neighbourhoods and degrees
    if kind == 'simple':
        for u in range(1, N + 1):
            want = sorted([b for (a, b) in E if a == u] + [a for (a, b) in E if b == u])
            got = list(_view(ctx, 'neighbors({})'.format(u), lambda: list(G.neighbors(u))))
            if got != want:
                bad("neighbors({}) = {} instead of {}".format(u, got, want))
            d = _view(ctx, 'degree({})'.format(u), G.degree, u)
            if d != len(want):
                bad("degree({}) = {} instead of {}".format(u, d, len(want)))
    elif kind == 'directed':
        for u in range(1, N + 1):
            wp = sorted(a for (a, b) in E if b == u)
            ws = sorted(b for (a, b) in E if a == u)
            gp = _view(ctx, 'predecessors({})'.format(u), lambda: list(G.predecessors(u)))
            gs = _view(ctx, 'successors({})'.format(u), lambda: list(G.successors(u)))
            if gp != wp:
                bad("predecessors({}) = {} instead of {}".format(u, gp, wp))
            if gs != ws:
                bad("successors({}) = {} instead of {}".format(u, gs, ws))
            di = _view(ctx, 'in_degree({})'.format(u), G.in_degree, u)
            do = _view(ctx, 'out_degree({})'.format(u), G.out_degree, u)
            if di != len(wp):
                bad("in_degree({}) = {} instead of {}".format(u, di, len(wp)))
            if do != len(ws):
                bad("out_degree({}) = {} instead of {}".format(u, do, len(ws)))
        dag = G.is_dag()
        if bool(dag) != M.is_dag():
            bad("is_dag() = {} but the inserted edges with src >= dest are {}".format(
                dag, sorted(e for e in E if e[0] >= e[1])))
    else:
        for u in range(1, M.L + 1):
            want = sorted(b for (a, b) in E if a == u)
            got = list(_view(ctx, 'right_neighbors({})'.format(u), G.right_neighbors, u))
            if got != want:
                bad("right_neighbors({}) = {} instead of {}".format(u, got, want))
            d = _view(ctx, 'right_degree({})'.format(u), G.right_degree, u)
            if d != len(want):
                bad("right_degree({}) = {} instead of {}".format(u, d, len(want)))
        for v in range(1, M.R + 1):
            want = sorted(a for (a, b) in E if b == v)
            got = list(_view(ctx, 'left_neighbors({})'.format(v), G.left_neighbors, v))
            if got != want:
                bad("left_neighbors({}) = {} instead of {}".format(v, got, want))
            d = _view(ctx, 'left_degree({})'.format(v), G.left_degree, v)
            if d != len(want):
                bad("left_degree({}) = {} instead of {}".format(v, d, len(want)))

    if networkx_too:
        check_to_networkx(G, M, ctx)


def check_to_networkx(G, M, ctx):
    """to_networkx() has the vertices 1..N and the edges of the model. Returns it."""
    import networkx
    X = _view(ctx, 'to_networkx()', G.to_networkx)
    kind = M.kind

    def bad(msg):
        raise Violation("{}: to_networkx(): {} | model: {}".format(ctx, msg, M.describe()))

    if not isinstance(X, networkx.Graph) or X.is_multigraph():
        bad("result is a {}".format(type(X).__name__))
    if X.is_directed() != (kind == 'directed'):
        bad("is_directed() = {}".format(X.is_directed()))
    N = (M.L + M.R) if kind == 'bipartite' else M.n
    if sorted(X.nodes()) != list(range(1, N + 1)) or X.number_of_nodes() != N:
        bad("nodes = {}".format(list(X.nodes())))
    if kind == 'bipartite':
        want = set((u, v + M.L) for (u, v) in M.E)
        got = set((min(a, b), max(a, b)) for (a, b) in X.edges())
        for x in X.nodes():
            side = X.nodes[x].get('bipartite')
            if side not in (0, 1) or side != (0 if x <= M.L else 1):
                bad("node {} has bipartite={!r}".format(x, side))
    elif kind == 'simple':
        want = set(M.E)
        got = set((min(a, b), max(a, b)) for (a, b) in X.edges())
    else:
        want = set(M.E)
        got = set(X.edges())
    if got != want or X.number_of_edges() != len(want):
        bad("edges = {} instead of {}".format(sorted(got), sorted(want)))
    return X


def foreign_networkx(M, mul=1, add=0, rev=False):
    """A networkx graph built by the harness from the model (not by to_networkx):
    vertex i is labelled mul*i+add (an increasing map, so 'the order is preserved'
    pins down the result); with rev the edges are inserted in reverse order and, for
    undirected graphs, with swapped endpoints; for simple and directed graphs the
    vertices are also inserted in decreasing order (for bipartite graphs the relabelling
    of each side follows the order of insertion of its vertices, so that is kept increasing
    inside each side, but with rev the whole right side is inserted before the left side)."""
    import networkx
    f = lambda i: mul * i + add
    kind = M.kind
    if kind == 'bipartite':
        X = networkx.Graph()
        sides = [[(f(i), 0) for i in range(1, M.L + 1)], [(f(M.L + j), 1) for j in range(1, M.R + 1)]]
        if rev:
            sides.reverse()          # right side first: networkx then lists the edges as (right, left)
        for side in sides:
            for x, colour in side:
                X.add_node(x, bipartite=colour)
        edges = [(f(u), f(M.L + v)) for (u, v) in sorted(M.E)]
    else:
        X = networkx.DiGraph() if kind == 'directed' else networkx.Graph()
        nodes = [f(i) for i in range(1, M.n + 1)]
        X.add_nodes_from(reversed(nodes) if rev else nodes)
        edges = [(f(u), f(v)) for (u, v) in sorted(M.E)]
    if rev:
        edges.reverse()
        if kind != 'directed':
            edges = [(b, a) for (a, b) in edges]
    X.add_edges_from(edges)
    return X


def check_conversions(G, M, ctx, nxparams):
    """from_networkx / normalize preserve vertices and edges."""
    cls = graph_class(M.clsname)
    X = check_to_networkx(G, M, ctx)
    same = _view(ctx, 'normalize(cnfgen object)', cls.normalize, G)
    if same is not G:
        raise Violation("{}: {}.normalize(G) of a {} object is not the object itself".format(
            ctx, M.clsname, M.clsname))
    ok, G2 = _call(ctx, cls.from_networkx, X)
    if not ok:
        raise Violation("{}: from_networkx(to_networkx()) raised ValueError({}) | model: {}".format(
            ctx, G2, M.describe()))
    if not isinstance(G2, cls):
        raise Violation("{}: from_networkx gives a {}".format(ctx, type(G2).__name__))
    check_views(G2, M, ctx + " / from_networkx(to_networkx())", networkx_too=True)
    ok, G3 = _call(ctx, cls.normalize, X)
    if not ok:
        raise Violation("{}: normalize(to_networkx()) raised ValueError({}) | model: {}".format(
            ctx, G3, M.describe()))
    if not isinstance(G3, cls):
        raise Violation("{}: normalize gives a {}".format(ctx, type(G3).__name__))
    check_views(G3, M, ctx + " / normalize(to_networkx())", networkx_too=False)
    Y = foreign_networkx(M, **nxparams)
    ok, G4 = _call(ctx, cls.normalize, Y)
    if not ok:
        raise Violation("{}: normalize(networkx graph {}) raised ValueError({}) | model: {}".format(
            ctx, nxparams, G4, M.describe()))
    check_views(G4, M, ctx + " / normalize(networkx graph built with {})".format(nxparams),
                networkx_too=False)


# ---------------------------------------------------------------------------
# operations

def _batch_outcomes(M, pairs):
    """Possible edge sets after add_edges_from(pairs).

    Returns (full, stops): ``full`` is the edge set when every pair is processed (None
    when some pair must be refused); ``stops`` is the list of edge sets the object may
    be left with when the call raises ValueError: the set reached just before a pair
    that must (or, gray, may) be refused - add_edges_from is documented only by its
    code, a loop over add_edge - or the untouched set (an all-or-nothing version)."""
    cur = set(M.E)
    stops = []
    full = None
    for (u, v) in pairs:
        c = M.classify(u, v)
        if c == 'bad':
            stops.append(set(cur))
            break
        if c == 'gray':
            stops.append(set(cur))
        cur.add(M.norm(u, v))
    else:
        full = cur
    if stops:
        stops.append(set(M.E))
    return full, stops


def apply_op(G, M, op, ctx):
    """Execute op on G and update M. Returns the set of labels describing what happened."""
    name = op[0]
    labels = set()
    if name == 'add_edge':
        u, v = op[1], op[2]
        c = M.classify(u, v)
        ok, res = _call(ctx, G.add_edge, u, v)
        if c == 'bad':
            if ok:
                raise Violation("{}: add_edge({},{}) is not allowed for {} but was not refused with ValueError".format(
                    ctx, u, v, M.describe()))
            labels.add('refused')
            if M.kind == 'simple' and u == v and 1 <= u <= M.n:
                labels.add('selfloop-refused')
            if M.kind == 'bipartite' and (1 <= u <= M.R and 1 <= v <= M.L):
                labels.add('swapped-sides-refused')
            if 0 in (u, v):
                labels.add('refused-zero')
            return labels
        if not ok:
            if c == 'gray':
                labels.update(('refused', 'loop-refused'))
                return labels
            raise Violation("{}: add_edge({},{}) is a legal insertion for {} but raised ValueError({})".format(
                ctx, u, v, M.describe(), res))
        e = M.norm(u, v)
        if e in M.E:
            labels.add('duplicate')
            if M.kind == 'simple' and u > v:
                labels.add('duplicate-other-orientation')
        else:
            M.E.add(e)
            M.inserted_total += 1
            labels.add('inserted')
            if M.kind == 'directed':
                if u == v:
                    labels.add('loop')
                elif u > v:
                    labels.add('back-edge')
        return labels

    if name == 'add_edges_from':
        pairs = [tuple(p) for p in op[1]]
        how = op[2] if len(op) > 2 else 'list'
        arg = iter(list(pairs)) if how == 'iter' else list(pairs)
        full, stops = _batch_outcomes(M, pairs)
        ok, res = _call(ctx, G.add_edges_from, arg)
        if ok:
            if full is None:
                raise Violation("{}: add_edges_from({}) contains a pair that is not allowed for {} but did not raise ValueError".format(
                    ctx, pairs, M.describe()))
            new = len(full) - len(M.E)
            if new:
                labels.add('inserted')
            labels.add('batch-ok')
            M.E = full
            M.inserted_total += new
            return labels
        if not stops:
            raise Violation("{}: add_edges_from({}) has only legal insertions for {} but raised ValueError({})".format(
                ctx, pairs, M.describe(), res))
        probe = set(M.norm(u, v) for (u, v) in pairs if M.classify(u, v) != 'bad')
        seen = set(e for e in probe if G.has_edge(e[0], e[1]))
        chosen = None
        for i, cand in enumerate(stops):
            if set(e for e in probe if e in cand) == seen:
                chosen = (i, cand)
                break
        if chosen is None:
            raise Violation("{}: add_edges_from({}) raised ValueError and left the edges {} of the list in the graph; expected a prefix of the list up to a refused pair, or nothing | model before: {}".format(
                ctx, pairs, sorted(seen), M.describe()))
        i, cand = chosen
        labels.update(('refused', 'batch-refused'))
        if cand != M.E:
            labels.add('batch-prefix-kept')
            labels.add('inserted')
        elif len(stops) > 1 and stops[0] != M.E:
            labels.add('batch-all-or-nothing')
        k = next((j for j, p in enumerate(pairs) if M.classify(*p) == 'bad'), None)
        if k is not None and 0 < k < len(pairs) - 1:
            labels.add('batch-bad-in-the-middle')
        M.inserted_total += len(cand) - len(M.E)
        M.E = cand
        return labels

    if name == 'remove_edge':
        u, v = op[1], op[2]
        ok, res = _call(ctx, G.remove_edge, u, v)
        e = M.norm(u, v)
        if e in M.E:
            if not ok:
                raise Violation("{}: remove_edge({},{}) of an existing edge raised ValueError({}) | model: {}".format(
                    ctx, u, v, res, M.describe()))
            M.E.discard(e)
            labels.add('removal')
            if u > v:
                labels.add('removal-other-orientation')
        else:
            # removing an edge that is not there: silently ignored by the code; a refusal
            # would be just as consistent. Either way nothing may change.
            labels.add('remove-absent')
            if not ok:
                labels.add('refused')
        return labels

    if name == 'update_vertex_number':
        k = op[1]
        ok, res = _call(ctx, G.update_vertex_number, k)
        if k < 0:
            if ok:
                raise Violation("{}: update_vertex_number({}) was not refused with ValueError".format(ctx, k))
            labels.update(('refused', 'growth-negative-refused'))
        elif k <= M.n:
            # "Raises the number of vertices to new_value": a smaller value leaves the graph as it is
            labels.add('growth-not-above')
            if not ok:
                labels.add('refused')
        else:
            if not ok:
                raise Violation("{}: update_vertex_number({}) on a graph with {} vertices raised ValueError({})".format(
                    ctx, k, M.n, res))
            M.n = k
            labels.add('growth')
        return labels

    raise ValueError("unknown operation {!r}".format(op))
